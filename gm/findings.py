"""Known findings, replay files, evidence files.

known_findings.txt (committed; never written at run time), one record per line:

    open:  property=C17 sig=<signature, no spaces> -- <what fails>
    fixed: property=C01 <commit> <what failed>

A `fixed:` record suppresses nothing. An `open:` record turns a violation with exactly that
signature into a KNOWN-FINDING line; any other signature is still a VIOLATION.
A signature ending in `*` matches by prefix.
"""
import json
import os
import re

from . import core

KNOWN = os.path.join(core.VERIF, "known_findings.txt")
OPEN_RE = re.compile(r"^open:\s+property=(C\d+)\s+sig=(\S+)\s+--\s+(.*)$")


def load(prop):
    out = []
    if not os.path.exists(KNOWN):
        return out
    for line in open(KNOWN, encoding="utf-8"):
        m = OPEN_RE.match(line.strip())
        if m and m.group(1) == prop:
            out.append({"sig": m.group(2), "text": m.group(3)})
    return out


def match(known, sig):
    if sig is None:
        return None
    s = sig.replace(" ", "_")
    for k in known:
        if k["sig"] == s or (k["sig"].endswith("*") and s.startswith(k["sig"][:-1])):
            return k
    return None


def write_replay(prop, rec):
    d = os.path.join(core.VERIF, "replays", prop)
    os.makedirs(d, exist_ok=True)
    p = os.path.join(d, core.sha([rec.get("sig"), rec.get("case")]) + ".json")
    with open(p, "w") as f:
        json.dump(rec, f, indent=1, default=str)
    return p


def write_evidence(prop, ev):
    d = os.path.join(core.VERIF, "evidence")
    os.makedirs(d, exist_ok=True)
    p = os.path.join(d, prop + ".json")
    tmp = p + ".tmp%d" % os.getpid()
    with open(tmp, "w") as f:
        json.dump(ev, f, indent=1, default=str)
    os.replace(tmp, p)
    return p
