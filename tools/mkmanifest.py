#!/usr/bin/env python3
"""Regenerate /verif/MANIFEST.json from the monitors present in gm/mon and the table below."""
import importlib
import json
import os
import subprocess
import sys

ROOT = os.path.dirname(os.path.dirname(os.path.abspath(__file__)))
sys.path.insert(0, ROOT)

props = [json.loads(l) for l in open(os.path.join(ROOT, "properties.jsonl"))]
NA_REASON = {}
try:
    NA_REASON = json.load(open(os.path.join(ROOT, "tools", "not_applicable.json")))
except FileNotFoundError:
    pass

hook_commits = subprocess.run(["git", "-C", "/repo", "log", "--format=%H %s", "--grep=^verif hooks"],
                              stdout=subprocess.PIPE, text=True).stdout.strip().split("\n")
hook_commits = [l.split(" ", 1)[0] for l in hook_commits if l]

checks, na = [], []
for p in props:
    pid = p["id"]
    path = os.path.join(ROOT, "gm", "mon", pid.lower() + ".py")
    if not os.path.exists(path) or pid in NA_REASON:
        na.append({"property_id": pid, "reason": NA_REASON.get(pid, "monitor not built yet; nothing is claimed for this property")})
        continue
    mod = importlib.import_module("gm.mon." + pid.lower())
    checks.append({
        "property_id": pid,
        "quick_cmd": "./check %s --tier quick" % pid,
        "thorough_cmd": "./check %s --tier thorough" % pid,
        "evidence_file": "/verif/evidence/%s.json" % pid,
        "replay_cmd_template": "./check %s --replay {path}" % pid,
        "engine": "gm",
        "level_claimed": {
            "category": getattr(mod, "LEVEL", "exploration"),
            "text": getattr(mod, "LEVEL_TEXT", None) or (mod.__doc__ or "").strip().split("\n\n")[0],
            "design_ref": "DESIGN.md section 4, " + pid,
        },
        "level_note": "; ".join(getattr(mod, "ASSUME", [])) or "oracle and workload as described in DESIGN.md",
        "technique": getattr(mod, "TECHNIQUE", "runtime monitoring: generated workload against the real binary, judged by an independent oracle"),
    })

manifest = {
    "version": 1,
    "setup_cmd": "./check --setup",
    "hooks": {
        "guard": "--cfg wilfred_garden_verif",
        "enable": "cd /repo && CARGO_TARGET_DIR=/verif/.build/target cargo rustc --offline --bin garden -- --cfg wilfred_garden_verif --check-cfg 'cfg(wilfred_garden_verif)'  (done by every check via gm/core.py build())",
        "baseline_off_cmd": "cd /repo && cargo test --workspace --no-fail-fast --offline",
        "source_commits": hook_commits,
        "add_only": True,
    },
    "engines": [{
        "name": "gm",
        "path": "/verif/gm",
        "serves_properties": [c["property_id"] for c in checks],
        "kind_free_text": "python3 (stdlib) runtime monitors driving the hooked dev build of /repo: process-level exit taxonomy, JSON-session/LSP/nREPL clients, reference models, strace syscall monitor, event-log checkers",
    }],
    "checks": checks,
    "not_applicable": na,
    "notes": "Technique family: runtime monitoring. Every check rebuilds /repo's working tree with the hooks on, runs generated workloads against the real binary and judges them with oracles in gm/ref and gm/mon. See DESIGN.md.",
}
json.dump(manifest, open(os.path.join(ROOT, "MANIFEST.json"), "w"), indent=1)
print("claimed:", [c["property_id"] for c in checks])
print("not claimed:", [n["property_id"] for n in na])
