#!/usr/bin/env python3
"""Regenerate /verif/MANIFEST.json from the monitors present in gm/mon and the table below."""
import importlib
import json
import os
import subprocess
import sys

ROOT = os.path.dirname(os.path.dirname(os.path.abspath(__file__)))
sys.path.insert(0, ROOT)

props = [json.loads(l) for l in open(os.path.join(ROOT, "properties.jsonl"))]
NA_REASON = {}
try:
    NA_REASON = json.load(open(os.path.join(ROOT, "tools", "not_applicable.json")))
except FileNotFoundError:
    pass

hook_commits = subprocess.run(["git", "-C", "/repo", "log", "--format=%H %s", "--grep=^verif hooks"],
                              stdout=subprocess.PIPE, text=True).stdout.strip().split("\n")
hook_commits = [l.split(" ", 1)[0] for l in hook_commits if l]

TECHNIQUE = {
 "C01": "runtime monitoring: fuzzed source texts through the hooked front end and the real CLI, judged by the process exit taxonomy (panic/abort/segv/hang)",
 "C02": "runtime monitoring: per-built-in hostile-argument exploration through the JSON session, judged by the exit taxonomy",
 "C03": "runtime monitoring: exhaustive small-scope operator chains; AST dump vs left-fold reference tree, values vs reference arithmetic",
 "C04": "runtime monitoring: differential testing against a reference arithmetic model on an exhaustive boundary grid plus random pairs",
 "C05": "runtime monitoring: differential execution of generated typed programs against an independent reference interpreter",
 "C06": "runtime monitoring: exhaustive by-construction scoping programs judged by the reference interpreter",
 "C07": "runtime monitoring: error-site catalogue x contexts in a JSON session; invariant r2=r3=r4 and r1~r2 over the response log",
 "C08": "fault injection at every interpreter tick (hook) with resume; metamorphic comparison with the uninterrupted run",
 "C09": "runtime monitoring: offline conservation checker (one response between sentinels, liveness) over transcripts of the real JSON session",
 "C10": "runtime monitoring: twin-session differential (aborted vs fresh) over probe requests",
 "C11": "runtime monitoring: twin-session metamorphic relation (incremental vs joined input)",
 "C12": "runtime monitoring: round-trip oracle (print, re-evaluate, independent reader) over exhaustive small strings and generated values",
 "C13": "runtime monitoring: all-pairs equality matrix against abstract value equality and the equivalence laws",
 "C14": "runtime monitoring of the real subtype relation via hook: agreement with a reference relation and preorder/variance laws on enumerated universes",
 "C15": "runtime monitoring of the real unify via hook: upper-bound and idempotence laws on enumerated universes, plus check/hover on snippets",
 "C16": "runtime monitoring: type-breaking mutation of well-typed generated programs; check verdict vs runtime error templates",
 "C17": "runtime monitoring: AST-dump equality of parse(x) and parse(format(x)) incl. comments over generated and re-laid-out programs",
 "C18": "runtime monitoring: idempotence oracle format(format(x)) == format(x) over fuzzed inputs, --check through the CLI",
 "C19": "runtime monitoring: rename at every occurrence vs the generator's binder-id occurrence sets; behaviour comparison",
 "C20": "runtime monitoring: extract refactorings at every pure sub-expression; metamorphic behaviour comparison with the original run",
 "C21": "runtime monitoring: wrap-in-dbg / add-type-annotation at every position; metamorphic behaviour and check-error comparison",
 "C22": "runtime monitoring: lint-seeded programs through check --fix; parse, behaviour and fixed-point oracles",
 "C23": "runtime monitoring: position-consistency invariant applied to every reported position of fuzzed inputs",
 "C24": "syscall-trace monitor (strace) with an allow-list over every effectful built-in in sandboxed modes",
 "C25": "runtime monitoring: sandboxed runs of non-terminating/blocking/deep programs judged by exit taxonomy, /proc state, strace and the tick hook",
 "C26": "runtime monitoring: by-construction test verdicts vs garden test output/exit status under isolation, permutation and filtering",
 "C27": "runtime monitoring: eval-up-to at every expression vs the reference interpreter's first-evaluation trace",
 "C28": "runtime monitoring: offline checker over LSP transcripts (one response per request before a sentinel, liveness, diagnostics == check)",
 "C29": "runtime monitoring: exhaustive small-document conversion checks via hook against a UTF-16 reference; server edits applied by an independent applier vs CLI output",
 "C30": "runtime monitoring: offline history checker (one done, last, output conservation with unique tags, isolation) over nREPL transcripts with injected delays",
 "C31": "runtime monitoring: interrupt/close scenarios against the real nREPL server with injected delays; transcript rules plus step bound from the event log",
 "C32": "runtime monitoring: differential testing against Python reference implementations on exhaustive small inputs; termination by the interpreter's own tick limit",
 "C33": "runtime monitoring: print/parse round trip of grammar-generated syntax trees via the AST-dump hook",
 "C34": "runtime monitoring: generated multi-file projects vs a visibility reference model at check and run time",
}

checks, na = [], []
for p in props:
    pid = p["id"]
    path = os.path.join(ROOT, "gm", "mon", pid.lower() + ".py")
    if not os.path.exists(path) or pid in NA_REASON:
        na.append({"property_id": pid, "reason": NA_REASON.get(pid, "monitor not built yet; nothing is claimed for this property")})
        continue
    mod = importlib.import_module("gm.mon." + pid.lower())
    checks.append({
        "property_id": pid,
        "quick_cmd": "./check %s --tier quick" % pid,
        "thorough_cmd": "./check %s --tier thorough" % pid,
        "evidence_file": "/verif/evidence/%s.json" % pid,
        "replay_cmd_template": "./check %s --replay {path}" % pid,
        "engine": "gm",
        "level_claimed": {
            "category": getattr(mod, "LEVEL", "exploration"),
            "text": getattr(mod, "LEVEL_TEXT", None) or (mod.__doc__ or "").strip().split("\n\n")[0],
            "design_ref": "DESIGN.md section 4, " + pid,
        },
        "level_note": "; ".join(getattr(mod, "ASSUME", [])) or "oracle and workload as described in DESIGN.md",
        "technique": TECHNIQUE.get(pid) or getattr(mod, "TECHNIQUE", "runtime monitoring"),
    })

manifest = {
    "version": 1,
    "setup_cmd": "./check --setup",
    "hooks": {
        "guard": "--cfg wilfred_garden_verif",
        "enable": "cd /repo && CARGO_TARGET_DIR=/verif/.build/target cargo rustc --offline --bin garden -- --cfg wilfred_garden_verif --check-cfg 'cfg(wilfred_garden_verif)'  (done by every check via gm/core.py build())",
        "baseline_off_cmd": "cd /repo && cargo test --workspace --no-fail-fast --offline",
        "source_commits": hook_commits,
        "add_only": True,
    },
    "engines": [{
        "name": "gm",
        "path": "/verif/gm",
        "serves_properties": [c["property_id"] for c in checks],
        "kind_free_text": "python3 (stdlib) runtime monitors driving the hooked dev build of /repo: process-level exit taxonomy, JSON-session/LSP/nREPL clients, reference models, strace syscall monitor, event-log checkers",
    }],
    "checks": checks,
    "not_applicable": na,
    "notes": "Technique family: runtime monitoring. Every check rebuilds /repo's working tree with the hooks on, runs generated workloads against the real binary and judges them with oracles in gm/ref and gm/mon. See DESIGN.md.",
}
json.dump(manifest, open(os.path.join(ROOT, "MANIFEST.json"), "w"), indent=1)
print("claimed:", [c["property_id"] for c in checks])
print("not claimed:", [n["property_id"] for n in na])
