#!/bin/bash
# tools/pick.sh <group letters...>: cherry-pick commits of agent-<g> whose subject is not yet on main
cd /repo
for g in "$@"; do
  for c in $(git log --reverse --format=%h main..agent-$g); do
    subj=$(git log --format=%s -1 $c)
    if git log --format=%s main | grep -qxF "$subj"; then continue; fi
    if git cherry-pick $c >/dev/null 2>&1; then echo "ok $g $c ${subj:0:90}"; else echo "CONFLICT $g $c ${subj:0:90}"; git status --short | grep -E "^(UU|AA|DU|UD)" ; git cherry-pick --abort; break; fi
  done
done
