#!/bin/bash
# tools/try_mut.sh <mutant dir> [props...]: apply patch to /repo, run quick checks, undo
d=$1; shift
props=${@:-$(python3 -c "import json;print(json.load(open('$d/meta.json'))['property'])")}
git -C /repo apply $d/patch.diff || { echo "patch does not apply: $d"; exit 2; }
trap 'git -C /repo checkout -- . ' EXIT
cd /verif
for p in $props; do
  out=$(./check $p --tier quick 2>&1); rc=$?
  echo "mutant=$d check=$p rc=$rc $(echo "$out" | grep -E "^\[$p" | tail -1)"
  echo "$out" | grep -E "^(VIOLATION|HARNESS)" -A1 | head -6 | cut -c1-260
done
