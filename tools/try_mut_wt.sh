#!/bin/bash
# tools/try_mut_wt.sh <worktree> <mutant dirs...>: like try_mut.sh but leaves /repo alone: the patch is applied in a
# scratch worktree and the check is pointed at it with VERIF_REPO / VERIF_BUILD_DIR (used while other checks run on /repo)
wt=$1; shift
export VERIF_REPO=$wt VERIF_BUILD_DIR=$wt-vbuild
cd /verif
for d in "$@"; do
  p=$(python3 -c "import json;print(json.load(open('$d/meta.json'))['property'])")
  git -C $wt checkout -q -- . ; git -C $wt apply $d/patch.diff || { echo "patch does not apply: $d"; continue; }
  out=$(./check $p --tier quick 2>&1); rc=$?
  echo "mutant=$d check=$p rc=$rc $(echo "$out" | grep -E "^\[$p" | tail -1)"
  echo "$out" | grep -E "^(VIOLATION|HARNESS)" -A1 | head -4 | cut -c1-260
  git -C $wt checkout -q -- .
done
