#!/bin/bash
# tools/confirm_mut.sh <stream name> <mutant dirs...>: confirm each mutant in a scratch worktree
# (applies, builds, demo exits 1 with the change and 0 without, full test suite passes apart from load-sensitive nREPL timing tests)
name=$1; shift
wt=/tmp/confirm-$name; tgt=/tmp/confirm-$name-target
[ -d $wt ] || git -C /repo worktree add -q --detach $wt main
git -C $wt checkout -q --detach main
export CARGO_TARGET_DIR=$tgt CARGO_NET_OFFLINE=true
cd $wt
cargo build --offline -q 2>/dev/null
cp $tgt/debug/garden $tgt/garden-base
for d in "$@"; do
  id=$(basename $(dirname $(dirname $d)))-$(basename $d)
  git checkout -q -- . ; 
  if ! git apply $d/patch.diff 2>/dev/null; then echo "RESULT $d apply=FAIL"; continue; fi
  if ! cargo build --offline -q 2>/tmp/confirm-$name-build.log; then echo "RESULT $d build=FAIL"; git checkout -q -- .; continue; fi
  cp $tgt/debug/garden $tgt/garden-mut
  (cd /tmp && timeout 600 bash $d/demo.sh $tgt/garden-base >/dev/null 2>&1); b=$?
  (cd /tmp && timeout 600 bash $d/demo.sh $tgt/garden-mut >/dev/null 2>&1); m=$?
  fails=$(cargo test --workspace --no-fail-fast --offline 2>&1 | grep -E "^test .* FAILED" | sed 's/ \.\.\. FAILED//; s/^test //' | tr '\n' ' ')
  echo "RESULT $d demo_base=$b demo_mut=$m test_failures=[$fails]"
  git checkout -q -- .
done
