#!/bin/bash
# tools/sweep.sh [tier] [seed] [props...]   run checks sequentially, print one summary line each
tier=${1:-quick}; seed=${2:-0}; shift 2 2>/dev/null
props=${@:-$(python3 -c "import json;print(' '.join(c['property_id'] for c in json.load(open('/verif/MANIFEST.json'))['checks']))")}
cd /verif
for p in $props; do
  s=$(date +%s)
  out=$(./check $p --tier $tier --seed $seed 2>&1); rc=$?
  e=$(date +%s)
  echo "$p rc=$rc wall=$((e-s))s $(echo "$out" | grep -E "^\[$p" | tail -1)"
  echo "$out" | grep -E "^(VIOLATION|KNOWN-FINDING|HARNESS-ERROR|WARNING)" | cut -c1-220
done
