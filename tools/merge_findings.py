#!/usr/bin/env python3
"""Merge /verif/proposed/<G>-findings.txt into known_findings.txt, mapping branch hashes to main hashes by subject."""
import re, subprocess, sys, glob
def git(*a):
    return subprocess.run(["git", "-C", "/repo"] + list(a), stdout=subprocess.PIPE, text=True).stdout
main = {}
for line in git("log", "--format=%h\t%s", "main").split("\n"):
    if "\t" in line:
        h, s = line.split("\t", 1); main.setdefault(s, h)
known = open("/verif/known_findings.txt").read()
out = []
for f in sorted(glob.glob("/verif/proposed/*-findings.txt")):
    for line in open(f):
        line = line.rstrip("\n")
        if line.startswith("open:"):
            if line not in known: out.append(line)
        elif line.startswith("fixed:"):
            m = re.match(r"fixed:\s+property=(C\d+)\s+(\S+)\s+(.*)", line)
            if not m: continue
            prop, h, text = m.groups()
            subj = git("log", "--format=%s", "-1", h).strip() if re.fullmatch(r"[0-9a-f]{7,40}", h) else ""
            nh = main.get(subj)
            if not nh:
                print("UNMAPPED", f, line[:100], file=sys.stderr); continue
            new = "fixed: property=%s %s %s" % (prop, nh, text)
            if ("property=%s %s " % (prop, nh)) not in known and new not in out: out.append(new)
if out:
    open("/verif/known_findings.txt", "a").write("\n".join(out) + "\n")
print("added", len(out))
