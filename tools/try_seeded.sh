#!/bin/bash
# tools/try_seeded.sh <seeded-id> [props...]  apply /verif/seeded/<id>/patch.diff to /repo, run quick checks, undo
id=$1; shift
d=/verif/seeded/$id
props=${@:-$(python3 -c "import json;print(json.load(open('$d/meta.json'))['property'])")}
git -C /repo apply $d/patch.diff || { echo "patch does not apply"; exit 2; }
trap 'git -C /repo checkout -- . ; git -C /repo clean -fdq src 2>/dev/null' EXIT
cd /verif
for p in $props; do
  out=$(./check $p --tier quick 2>&1); rc=$?
  echo "seeded=$id check=$p rc=$rc $(echo "$out" | grep -cE '^VIOLATION') violations $(echo "$out" | grep -E "^\[$p" | tail -1)"
  echo "$out" | grep -E "^VIOLATION" -A1 | head -4 | cut -c1-240
done
